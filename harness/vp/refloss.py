"""Independent reference implementations of the documented loss definitions (plain loops / math.fsum; no
black_it code, no scipy.stats/statsmodels shortcuts shared with the implementation)."""
from __future__ import annotations

import cmath
import math

import numpy as np


def div(a, b):
    """IEEE division (inf / nan instead of ZeroDivisionError)"""
    with np.errstate(all="ignore"):
        return float(np.float64(a) / np.float64(b))


def mean(xs):
    xs = list(xs)
    if any(x != x or x in (float('inf'), float('-inf')) for x in xs):
        return float(np.sum(xs)) / len(xs)
    return math.fsum(xs) / len(xs)


def minkowski(sim, real, p=2, weights=None, filters=None):
    e, n, d = sim.shape
    w = [1.0 / d] * d if weights is None else list(weights)
    tot = 0.0
    for i in range(d):
        members = [sim[j, :, i] for j in range(e)]
        if filters is not None and filters[i] is not None:
            members = [np.asarray(filters[i](m)) for m in members]
        m = [mean([float(mm[t]) for mm in members]) for t in range(len(members[0]))]
        if p == float("inf"):
            dist = max(abs(a - float(b)) for a, b in zip(m, real[:, i]))        # the order-infinity (Chebyshev) distance, the limit of the p-distances
        else:
            dist = math.fsum(abs(a - float(b)) ** p for a, b in zip(m, real[:, i])) ** (1.0 / p)
        tot += dist * w[i]
    return tot


def central(xs, k):
    m = mean(xs)
    return mean([(x - m) ** k for x in xs])


def acf(xs, lag):
    m = mean(xs)
    den = math.fsum((x - m) ** 2 for x in xs)
    num = math.fsum((xs[t] - m) * (xs[t + lag] - m) for t in range(len(xs) - lag))
    return num / den if den != 0 else float("nan")


def sroot(v, k):
    if v != v:
        return v
    return math.copysign(abs(v) ** (1.0 / k), v) if v != 0 else 0.0


def moments18(ts):
    def block(xs):
        xs = [float(x) for x in xs]
        m2 = central(xs, 2)
        sk = central(xs, 3) / m2 ** 1.5 if m2 > 0 else float("nan")
        ku = central(xs, 4) / m2 ** 2 - 3.0 if m2 > 0 else float("nan")
        return [mean(xs), math.sqrt(m2), sroot(sk, 3), sroot(ku, 4)] + [acf(xs, l) for l in range(1, 6)]
    ad = [abs(float(ts[t + 1]) - float(ts[t])) for t in range(len(ts) - 1)]
    out = block(ts) + block(ad)
    return [0.0 if v != v else (1.7976931348623157e308 if v == float("inf") else (-1.7976931348623157e308 if v == float("-inf") else v)) for v in out]


def msm(sim, real, cov="identity", standardise=False, weights=None):
    e, n, d = sim.shape
    w = [1.0 / d] * d if weights is None else list(weights)
    tot = 0.0
    for i in range(d):
        ens = [moments18(sim[j, :, i]) for j in range(e)]
        rm = moments18(real[:, i])
        if standardise:
            ens = [[div(v, abs(r)) for v, r in zip(m, rm)] for m in ens]
            rm = [div(r, abs(r)) for r in rm]
        sm = [mean([m[k] for m in ens]) for k in range(18)]
        g = [r - s for r, s in zip(rm, sm)]
        if isinstance(cov, str) and cov == "identity":
            l1 = float(np.sum([x * x for x in g]))
        elif isinstance(cov, str):
            v = [mean([(rm[k] - m[k]) ** 2 for m in ens]) for k in range(18)]
            l1 = float(np.sum([div(g[k] * g[k], v[k]) if not (g[k] == 0 and v[k] == 0) else float('nan') for k in range(18)]))
        else:
            l1 = float(np.sum([g[a] * cov[a][b] * g[b] for a in range(18) for b in range(18)]))
        tot += l1 * w[i]
    return tot


def rdft(x):
    n = len(x)
    return [sum(float(x[t]) * cmath.exp(-2j * math.pi * k * t / n) for t in range(n)) for k in range(n // 2 + 1)]


def fourier(sim, real, f=0.8, kind="gaussian", weights=None):
    e, n, d = sim.shape
    w = [1.0 / d] * d if weights is None else list(weights)
    tot = 0.0
    for i in range(d):
        def filt(spec):
            m = len(spec)
            if kind == "ideal":
                keep = int(round_half_even(f * m))
                return [s if k < keep else 0.0 for k, s in enumerate(spec)]
            sigma = round_half_even(f * m)
            return [s * math.exp(-(k ** 2) / (2 * sigma ** 2)) for k, s in enumerate(spec)]
        fr = filt(rdft(real[:, i]))
        fs = [filt(rdft(sim[j, :, i])) for j in range(e)]
        fm = [sum(s[k] for s in fs) / e for k in range(len(fr))]
        tot += math.sqrt(math.fsum(abs(a - b) ** 2 for a, b in zip(fm, fr)) / len(fr)) * w[i]
    return tot


def round_half_even(x):
    return float(np.round(x))


def discretize(ts, nb_values):
    lo, hi = float(min(ts)) - 0.00001, float(max(ts)) + 0.00001
    nodes = np.linspace(lo, hi, nb_values + 1)
    return [sum(1 for nd in nodes if nd < float(x)) for x in ts]


def entropy(probs, base):
    return -math.fsum(p * math.log(p) / math.log(base) for p in probs)


def pinned_packed_words(sym, length):
    """the word packing of the pinned commit, copied verbatim (an int32 accumulator plus symbols times 10**k as Python integers: numpy promotes
    to float64 once 10**k leaves the int64 range).  Used ONLY to recognise the recorded known finding (lossy packing for >= 10 symbols / long
    words) when the implementation deviates from the documented tuple words; it is not a reference for correct behaviour."""
    ts = np.asarray(sym)
    tswlen = len(ts) + 1 - length
    tsw = np.zeros(shape=(tswlen,), dtype=np.int32)
    for i in range(length):
        k = 10 ** (length - i - 1)
        tsw = tsw + ts[i: tswlen + i] * k
    return tsw.tolist()


def gsl_1sample(sim_sym, obs_sym, L, nb_values, T, pinned_packing=False):
    tot, weight = 0.0, 0.0
    for l in range(1, L + 1):
        sw = [tuple(sim_sym[i:i + l]) for i in range(len(sim_sym) + 1 - l)]
        ow = [tuple(obs_sym[i:i + l]) for i in range(len(obs_sym) + 1 - l)]
        if pinned_packing:
            sw, ow = pinned_packed_words(sim_sym, l), pinned_packed_words(obs_sym, l)
        mw = sw + ow
        def probs(ws):
            c = {}
            for x in ws:
                c[x] = c.get(x, 0) + 1
            return [v / len(ws) for v in c.values()]
        sp, mp = probs(sw), probs(mw)
        base = float(nb_values ** l)
        weight += 2.0 / (L * (L + 1))
        corr = ((len(mp) - 1) - (len(sp) - 1)) / (2 * T)
        tot += weight * (2 * entropy(mp, base) - entropy(sp, base) + corr)
    return tot


def gsl(sim, real, nb_values=None, nb_word_lengths=None, weights=None, pinned_packing=False):
    e, n, d = sim.shape
    w = [1.0 / d] * d if weights is None else list(weights)
    tot = 0.0
    T = real.shape[0]
    nv = int((T - 1) / 2.0) if nb_values is None else nb_values
    L = int((T - 1) / 2.0) if nb_word_lengths is None else nb_word_lengths
    for i in range(d):
        obs = discretize(real[:, i], nv)
        l1 = mean([gsl_1sample(discretize(sim[j, :, i], nv), obs, L, nv, T, pinned_packing) for j in range(e)])
        tot += l1 * w[i]
    return tot


def likelihood(sim, real, h="silverman"):
    r, s, d = sim.shape
    T = real.shape[0]
    if h == "silverman":
        hh = ((s * (d + 2)) / 4) ** (-1 / (d + 4))
    elif h == "scott":
        hh = s ** (-1 / (d + 4))
    else:
        hh = h
    tot = 0.0
    for j in range(r):
        ll = 0.0
        for t in range(T):
            ks = []
            for u in range(s):
                sq = sum((float(sim[j, u, k]) - float(real[t, k])) ** 2 for k in range(d)) / d
                ks.append(math.exp(-sq / (2 * hh ** 2)) / (hh ** d * (2 * math.pi) ** (d / 2)))
            v = math.fsum(ks) / s
            ll += math.log(v) if v > 0 else float("-inf")
        tot += ll
    return -tot / r


def likelihood_big(sim, real, h="silverman"):
    """the same definition as `likelihood`, vectorised over the simulated time steps in extended precision (for long series;
    explicit differences, no algebraic expansion of the squared distance)"""
    r, s, d = sim.shape
    T = real.shape[0]
    hh = ((s * (d + 2)) / 4) ** (-1 / (d + 4)) if h == "silverman" else s ** (-1 / (d + 4)) if h == "scott" else h
    simL, realL = sim.astype(np.longdouble), real.astype(np.longdouble)
    norm = np.longdouble(hh) ** d * (2 * np.longdouble(np.pi)) ** (d / 2.0)
    tot = np.longdouble(0)
    for j in range(r):
        ll = np.longdouble(0)
        for t in range(T):
            sq = np.sum((simL[j] - realL[t][None, :]) ** 2, axis=1) / d
            ll += np.log(np.sum(np.exp(-(sq / (2 * np.longdouble(hh) ** 2))) / norm) / s)
        tot += ll
    return float(-tot / r)
