"""numpy-aware recursive description of an object's state, for bit-exact comparison."""
from __future__ import annotations

import numpy as np


def deep(o, depth=0, seen=None):
    seen = seen if seen is not None else set()
    if depth > 12:
        return "<deep>"
    if o is None or isinstance(o, (bool, int, str, bytes)):
        return o
    if isinstance(o, float):
        return ("f", float(o).hex())
    if isinstance(o, np.generic):
        return ("np", str(o.dtype), o.tobytes())
    if isinstance(o, np.ndarray):
        if o.dtype == object:
            return ("objarr", o.shape, [deep(x, depth + 1, seen) for x in o.flatten().tolist()])
        return ("arr", str(o.dtype), o.shape, np.ascontiguousarray(o).tobytes())
    if isinstance(o, np.random.Generator):
        return ("gen", deep(o.bit_generator.state, depth + 1, seen))
    if isinstance(o, np.random.RandomState):
        st = o.get_state()
        return ("rs", st[0], st[1].tobytes(), st[2:])
    if isinstance(o, dict):
        return ("dict", [(str(k), deep(v, depth + 1, seen)) for k, v in o.items()])
    if isinstance(o, (list, tuple)):
        return (type(o).__name__, [deep(x, depth + 1, seen) for x in o])
    if isinstance(o, (set, frozenset)):
        return ("set", sorted(repr(x) for x in o))
    if id(o) in seen:
        return "<cycle>"
    seen.add(id(o))
    name = type(o).__name__
    mod = type(o).__module__ or ""
    if mod.startswith("xgboost"):
        try:
            return ("xgb", name, bytes(o.get_booster().save_raw("json")) if hasattr(o, "get_booster") else repr(o))
        except Exception:  # noqa: BLE001
            return ("xgb", name, "unfitted", deep(getattr(o, "__dict__", {}), depth + 1, seen))
    if mod.startswith("threading") or mod.startswith("_thread") or mod.startswith("queue"):
        return ("sync", name)
    if callable(o) and not hasattr(o, "__dict__"):
        return ("fn", getattr(o, "__qualname__", repr(o)))
    if hasattr(o, "__getstate__") and mod.startswith("sklearn.tree._tree"):
        return ("tree", deep(o.__getstate__(), depth + 1, seen))
    d = getattr(o, "__dict__", None)
    if d is None:
        slots = getattr(o, "__slots__", None)
        if slots:
            return ("slots", name, [(s, deep(getattr(o, s, None), depth + 1, seen)) for s in slots])
        return ("repr", name, repr(o))
    fields = [(k, deep(v, depth + 1, seen)) for k, v in sorted(d.items()) if not k.startswith("_vp_")]
    if depth == 0:
        fields.append(("<arrays sharing memory>", ("list", [("list", g) for g in shared_memory_groups(o)])))
    return ("obj", name, fields)


def _first_party(o) -> bool:
    mod = type(o).__module__ or ""
    return mod.startswith(("black_it", "vp", "props", "__main__"))


def shared_memory_groups(o) -> list[list[str]]:
    """which numeric arrays held (directly, or in plain containers) by the first-party objects reachable from `o` share memory with each other —
    the same object under two names, or a view.  Part of an object's state: writing through one name changes the other."""
    found, seen = [], set()

    def walk(x, path, depth):
        if depth > 8 or id(x) in seen and not isinstance(x, np.ndarray):
            return
        if isinstance(x, np.ndarray):
            if x.dtype != object and x.size > 0:
                found.append((path, x))
            return
        seen.add(id(x))
        if isinstance(x, dict):
            for k, v in x.items():
                walk(v, f"{path}.{k}", depth + 1)
        elif isinstance(x, (list, tuple)):
            for i, v in enumerate(x):
                walk(v, f"{path}[{i}]", depth + 1)
        elif _first_party(x) and hasattr(x, "__dict__"):
            for k, v in sorted(vars(x).items()):
                if not k.startswith("_vp_"):
                    walk(v, f"{path}.{k}", depth + 1)

    walk(o, "", 0)
    groups, used = [], set()
    for i, (pi, ai) in enumerate(found):
        if i in used:
            continue
        g = [pi]
        for j in range(i + 1, len(found)):
            if j not in used and np.shares_memory(ai, found[j][1]):
                g.append(found[j][0]); used.add(j)
        if len(g) > 1:
            groups.append(sorted(g))
    return sorted(groups)


def diff(a, b, path="") -> list[str]:
    """paths at which two deep() descriptions differ (first few)"""
    out = []
    if type(a) != type(b):
        return [f"{path}: {type(a).__name__} vs {type(b).__name__}"]
    if isinstance(a, tuple) and len(a) >= 2 and a[0] in ("obj", "dict") and a[0] == b[0]:
        la, lb = dict(a[-1]), dict(b[-1])
        for k in sorted(set(la) | set(lb)):
            if k not in la or k not in lb:
                out.append(f"{path}.{k}: only on one side")
            else:
                out += diff(la[k], lb[k], f"{path}.{k}")
        return out[:8]
    if isinstance(a, (tuple, list)):
        if len(a) != len(b):
            return [f"{path}: length {len(a)} vs {len(b)}"]
        for i, (x, y) in enumerate(zip(a, b)):
            out += diff(x, y, f"{path}[{i}]")
            if len(out) > 8:
                break
        return out
    return [] if a == b else [f"{path}: {str(a)[:60]} vs {str(b)[:60]}"]
