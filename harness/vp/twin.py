"""Whole-calibration runs on the real code with built-in samplers and losses (used by C01, C04, C05)."""
from __future__ import annotations

import contextlib
import io
import os
import shutil
import tempfile
import warnings

import numpy as np

from vp.calharness import SMALL_OPTS, make_builtin

BUILTINS = ["HaltonSampler", "RandomUniformSampler", "RSequenceSampler", "BestBatchSampler", "GaussianProcessSampler",
            "RandomForestSampler", "XGBoostSampler", "ParticleSwarmSampler", "CORSSampler"]
LOSSES = ["minkowski", "msm", "fourier", "gsl", "likelihood",
          # the same classes with non-default options (an option value may be remembered as an object that does not survive pickling unchanged)
          "msm_inv", "msm_std", "minkowski_p1", "fourier_ideal", "likelihood_scott", "gsl_small"]


def toy_model(theta, N, seed):  # noqa: N803
    """a cheap stochastic model: AR(1)-like series whose level/scale depend on theta"""
    rng = np.random.default_rng(seed)
    th = np.asarray(theta, dtype=float)
    x = np.zeros((N, 2))
    e = rng.standard_normal((N, 2))
    a = 0.5 * np.tanh(th[0])
    for t in range(1, N):
        x[t] = a * x[t - 1] + e[t] * (0.5 + abs(th[-1]))
    return x + th.mean()


class ModelRefuses(RuntimeError):
    """raised by toy_model_raising"""


def toy_model_raising(theta, N, seed):  # noqa: N803
    """a pure function of (theta, N, seed) that refuses some of the seeds it is handed (a simulation that diverges for some random draws)"""
    if int(seed) % 4 == 1:
        raise ModelRefuses(f"diverged for seed {int(seed)}")
    return toy_model(theta, N, seed)


def toy_model_mut(theta, N, seed):  # noqa: N803
    """the same model, but one that uses its argument as scratch space (legal: the calibrator hands every call its own copy of the row)"""
    out = toy_model(theta, N, seed)
    try:
        theta[...] = np.floor(theta) - 1.0
    except (ValueError, TypeError):
        pass
    return out


class InfMixLoss:
    """a loss that is +inf / -inf on part of the parameter space (a diverging simulation, an undefined likelihood) and finite elsewhere;
    a deterministic function of the simulated data, module-level so that it pickles"""

    def __new__(cls):
        from black_it.loss_functions.minkowski import MinkowskiLoss

        class _InfMix(MinkowskiLoss):
            def compute_loss(self, sim_data_ensemble, real_data):
                v = float(super().compute_loss(sim_data_ensemble, real_data))
                m = float(np.mean(sim_data_ensemble))
                return float("inf") if m > 0.62 else -float("inf") if m < 0.12 else v

            def __reduce__(self):
                return (InfMixLoss, ())
        return _InfMix()


def make_loss(name):
    if name == "infmix":
        return InfMixLoss()
    if name == "msm_inv":
        from black_it.loss_functions.msm import MethodOfMomentsLoss
        return MethodOfMomentsLoss(covariance_mat="inverse_variance")
    if name == "msm_std":
        from black_it.loss_functions.msm import MethodOfMomentsLoss
        return MethodOfMomentsLoss(standardise_moments=True)
    if name == "minkowski_p1":
        from black_it.loss_functions.minkowski import MinkowskiLoss
        return MinkowskiLoss(p=1)
    if name == "fourier_ideal":
        from black_it.loss_functions.fourier import FourierLoss, ideal_low_pass_filter
        return FourierLoss(frequency_filter=ideal_low_pass_filter, f=0.5)
    if name == "likelihood_scott":
        from black_it.loss_functions.likelihood import LikelihoodLoss
        return LikelihoodLoss(h="scott")
    if name == "gsl_small":
        from black_it.loss_functions.gsl_div import GslDivLoss
        return GslDivLoss(nb_values=3, nb_word_lengths=2)
    if name == "minkowski":
        from black_it.loss_functions.minkowski import MinkowskiLoss
        return MinkowskiLoss()
    if name == "msm":
        from black_it.loss_functions.msm import MethodOfMomentsLoss
        return MethodOfMomentsLoss()
    if name == "fourier":
        from black_it.loss_functions.fourier import FourierLoss
        return FourierLoss()
    if name == "gsl":
        from black_it.loss_functions.gsl_div import GslDivLoss
        return GslDivLoss()
    from black_it.loss_functions.likelihood import LikelihoodLoss
    return LikelihoodLoss()


def real_data(N=24):  # noqa: N803
    return toy_model([0.3, 0.2], N, 12345)


def build(cfg, folder=None, model=None):
    from black_it.calibrator import Calibrator

    samplers = [make_builtin(nm, bs, SMALL_OPTS.get(nm), cseed) for (nm, bs, cseed) in cfg["lineup"]]
    d = cfg["dims"]
    kw = {}
    if cfg.get("sched", "rr") == "rl":
        from black_it.schedulers.rl.agents.epsilon_greedy import MABEpsilonGreedy
        from black_it.schedulers.rl.envs.mab import MABCalibrationEnv
        from black_it.schedulers.rl.rl_scheduler import RLScheduler
        kw["scheduler"] = RLScheduler(samplers, MABEpsilonGreedy(len(samplers), -1.0, cfg.get("agent_eps", 0.2), random_state=cfg.get("agent_ctor_seed")),
                                      MABCalibrationEnv(len(samplers)))
    else:
        kw["samplers"] = samplers
    return Calibrator(loss_function=make_loss(cfg["loss"]), real_data=real_data(cfg.get("N", 24)), model=model or (toy_model_mut if cfg.get("model") == "mutating" else toy_model_raising if cfg.get("model") == "raising" else toy_model),
                      parameters_bounds=[[0.0] * d, [1.0] * d], parameters_precision=[cfg.get("prec", 0.01)] * d,
                      ensemble_size=cfg["ensemble"], verbose=cfg.get("verbose", False), saving_folder=folder,
                      # a simulation length other than the real one only with losses that compare summaries (point-wise losses need equal lengths)
                      sim_length=cfg.get("sim_length") if str(cfg["loss"]).startswith(("msm", "likelihood", "gsl")) else None,
                      random_state=cfg["seed"], n_jobs=cfg.get("n_jobs", 1), **kw)


def history(cal):
    return {"params": np.array(cal.params_samp), "losses": np.array(cal.losses_samp, dtype=float), "series": np.array(cal.series_samp),
            "batch": np.array(cal.batch_num_samp), "method": np.array(cal.method_samp)}


RESTORE_DIFFS: list = []      # filled by run_segments: (segment index, paths at which the restored object differs from the saved one)


def run_segments(cfg, segments, use_folder=None):
    """segments: list of (n_batches, boundary) with boundary in {'live', 'restore', 'end'} applied AFTER the segment.
    returns (history dict, list of return values, calibrator)"""
    from black_it.calibrator import Calibrator

    need_folder = use_folder if use_folder is not None else any(b == "restore" for _, b in segments) or cfg.get("folder", False)
    folder = tempfile.mkdtemp(prefix="vptwin") if need_folder else None
    rets = []
    try:
        with contextlib.redirect_stdout(io.StringIO()), warnings.catch_warnings():
            warnings.simplefilter("ignore")
            explicit = bool(cfg.get("explicit_checkpoints"))       # no saving folder: a checkpoint is written only at a 'restore' boundary
            if cfg.get("leftover") and folder:
                # the folder is not empty: it holds the checkpoint of ANOTHER calibration (other loss, other line-up, other seed)
                other = build(cfg["leftover"], folder)
                other.calibrate(cfg["leftover"].get("batches", 2))
                del other
            cal = build(cfg, None if explicit else folder)
            for n, boundary in segments:
                if cfg.get("model") == "raising":
                    try:
                        rets.append(cal.calibrate(n))
                    except ModelRefuses as e:        # the outcome of this run: which call raised what, and the history so far
                        # (which of several refused seeds of one batch is reported first is up to the worker pool: only the fact and the class count)
                        rets.append(("raised", type(e).__name__))
                        break
                    continue
                if cfg.get("may_raise"):
                    # a configuration the library may refuse at run time (a history-dependent sampler scheduled before enough points exist): whatever happens -
                    # an exception, or anything else - is the outcome of the run, with the history so far
                    try:
                        rets.append(cal.calibrate(n))
                    except Exception as e:  # noqa: BLE001
                        rets.append(("raised", type(e).__name__))
                        break
                    continue
                rets.append(cal.calibrate(n))
                if folder and os.path.exists(os.path.join(folder, "calibration_params.json")):
                    from vp import leftovers
                    leftovers.plant_stale_pickles(folder)      # left-over files under names this version of the code knows (no-op on the unchanged tree)
                if boundary == "restore":
                    from vp.deep import deep, diff
                    saved = deep(cal)
                    if explicit:
                        cal.create_checkpoint(folder)
                    cal = Calibrator.restore_from_checkpoint(folder, model=toy_model)
                    dd = diff(saved, deep(cal))
                    if dd:
                        RESTORE_DIFFS.append((len(rets) - 1, dd[:4]))
        return history(cal), rets, cal
    finally:
        if folder:
            shutil.rmtree(folder, ignore_errors=True)


def same_history(a, b):
    """byte-wise comparison; returns the list of differing fields"""
    bad = []
    for k in a:
        x, y = a[k], b[k]
        if x.shape != y.shape or x.dtype.kind != y.dtype.kind or x.tobytes() != np.asarray(y, dtype=x.dtype).tobytes():
            bad.append(k)
    return bad


def compositions(n):
    """all ways of cutting n batches into consecutive segments, each internal boundary live or restore"""
    out = []

    def rec(rem, acc):
        if rem == 0:
            out.append(acc[:-1] + [(acc[-1][0], "end")])
            return
        for k in range(1, rem + 1):
            if k == rem:
                rec(0, acc + [(k, "end")])
            else:
                for b in ("live", "restore"):
                    rec(rem - k, acc + [(k, b)])

    rec(n, [])
    return out
