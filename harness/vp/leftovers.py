"""Left-over files in a saving folder.

A saving folder may hold what earlier work left there ("whatever the saving folder held before": C04).  The harness cannot guess file names a future version of
the library might look for, but it can read them off the code under test: every string literal in the installed `black_it` package that looks like a data file
name (`*.pickle`, `*.json`, `*.csv`, `*.h5`, `*.db`, ...) is a name the code knows.  `plant_stale_pickles` creates, for every such `*.pickle`/`*.pkl` name that does
NOT exist in the folder after a genuine checkpoint of another calibration was written there, a file of that name holding a pickled list of sampler objects of
ANOTHER line-up - what an older release or another tool may have left behind.  On the unchanged tree every pickle name the code knows is (re)written by the
checkpoint itself, so nothing is planted and nothing can go wrong; a version of the code that starts consulting another name finds a stale line-up there.
"""
from __future__ import annotations

import pickle
import re
from pathlib import Path

_PAT = re.compile(r"""["']([A-Za-z0-9_.\-]+\.(?:pickle|pkl|json|csv|h5|hdf5|db|sqlite|sqlite3|npy|npz))["']""")


def known_filenames() -> list[str]:
    """data-file names mentioned as string literals anywhere in the package that is being tested (read from its source on every run)"""
    import black_it

    root = Path(black_it.__file__).resolve().parent
    names: set[str] = set()
    for f in root.rglob("*.py"):
        try:
            names.update(_PAT.findall(f.read_text()))
        except OSError:
            pass
    return sorted(names)


def stale_samplers():
    """a line-up no scenario of the harness uses: two uniform samplers and a Halton sampler with unusual batch sizes"""
    from black_it.samplers.halton import HaltonSampler
    from black_it.samplers.random_uniform import RandomUniformSampler

    return [RandomUniformSampler(batch_size=7, random_state=11), HaltonSampler(batch_size=6, random_state=12), RandomUniformSampler(batch_size=5, random_state=13)]


def plant_stale_pickles(folder) -> list[str]:
    """see the module docstring; returns the names that were planted"""
    folder = Path(folder)
    planted = []
    for name in known_filenames():
        if name.endswith((".pickle", ".pkl")) and not (folder / name).exists():
            (folder / name).write_bytes(pickle.dumps(stale_samplers()))
            planted.append(name)
    return planted
