"""Drive the real `Calibrator` and the Lean calibrator model (`cal.run`) with the same scripted scenario.

Stub components (module level, so that they pickle):
  * `stub_model(theta, N, seed)` returns an (N,1) series that encodes its own arguments,
  * `StubLoss.compute_loss` looks the loss of theta up in a table,
  * `StubA..StubF` samplers return scripted rows.
Every sampler object (built-in or stub) carries `_vp_obj` (identity) and `_vp_calls`; a class-level wrapper
around `BaseSampler.sample` records what each call returned.  Fault plans raise `StubFault` at the k-th
invocation of a component kind.
"""
from __future__ import annotations

import contextlib
import io
import os
import shutil
import tempfile
from dataclasses import dataclass, field

import numpy as np

from vp.core import f2h

# ----------------------------------------------------------------------------- global stub state
STATE = {"model_calls": 0, "loss_calls": 0, "sampler_calls": 0, "faults": set(), "dims": 1,
         "loss_table": {}, "loss_default": 1.0, "record": None}


class StubAbort(BaseException):
    """a failure that is not an `Exception` subclass (like KeyboardInterrupt / SystemExit raised inside a simulation)"""

    def __init__(self, kind):
        super().__init__(kind)
        self.kind = kind


class StubStop(StopIteration):
    """a failure whose class the iteration protocol gives a meaning to (a loss calling next() on an exhausted iterator)"""

    def __init__(self, kind):
        super().__init__(kind)
        self.kind = kind


class StubOSError(OSError):
    def __init__(self, kind):
        super().__init__(kind)
        self.kind = kind


class StubArithmetic(ZeroDivisionError):
    def __init__(self, kind):
        super().__init__(kind)
        self.kind = kind


class StubGeneratorExit(GeneratorExit):
    def __init__(self, kind):
        super().__init__(kind)
        self.kind = kind


FAULT_CLASSES = {}      # filled below: name -> class


def _fault(kind):
    STATE["fired"] = STATE.get("fired", 0) + 1
    name = STATE.get("fault_class") or ("base" if STATE.get("fault_base") else "exception")
    return FAULT_CLASSES[name](kind)


class StubFault(Exception):
    def __init__(self, kind):
        super().__init__(kind)
        self.kind = kind


FAULT_CLASSES.update({"exception": StubFault, "base": StubAbort, "stop_iteration": StubStop, "os_error": StubOSError, "arithmetic": StubArithmetic,
                      "generator_exit": StubGeneratorExit})


def stub_model(theta, N, seed):  # noqa: N803
    k = STATE["model_calls"]
    STATE["model_calls"] += 1
    if ("M", k) in STATE["faults"]:
        raise _fault("model")
    out = np.zeros((N, 1))
    d = len(theta)
    out[:d, 0] = theta
    out[d, 0] = N
    out[d + 1, 0] = seed
    whole = bool(np.all(out[:d, 0] == np.floor(out[:d, 0])))
    if STATE.get("model_mutates"):
        # sloppy but legal user code: the model normalises / clamps its parameter argument in place after using it
        try:
            theta[...] = np.floor(theta)
        except (TypeError, ValueError):
            pass
    if STATE.get("model_mixed_dtype") and whole:
        # a model whose output type depends on its parameters: whole-number parameters give integer "head counts", the others floating-point series
        return out.astype(np.int64)
    return out


def par_model(theta, N, seed):  # noqa: N803  (no global state: usable with n_jobs > 1)
    out = np.zeros((N, 1))
    d = len(theta)
    out[:d, 0] = theta
    out[d, 0] = N
    out[d + 1, 0] = seed
    return out


class StubLoss:
    """loss = table[theta of the first ensemble member] (default otherwise)"""

    def compute_loss(self, sim_data_ensemble, real_data):
        k = STATE["loss_calls"]
        STATE["loss_calls"] += 1
        if ("L", k) in STATE["faults"]:
            raise _fault("loss")
        # the loss must be computed against THE real data: record what is passed in
        STATE.setdefault("real_args", set()).add((real_data.shape, real_data.tobytes()))
        d = STATE["dims"]
        theta = sim_data_ensemble[0][:d, 0]
        key = tuple(f2h(x) for x in theta)
        if STATE.get("loss_fn") is not None:
            v = LOSS_FNS[STATE["loss_fn"]](theta)
            STATE["loss_seen"][key] = v
            return v
        return STATE["loss_table"].get(key, STATE["loss_default"])


LOSS_FNS = {
    "sum": lambda th: float(np.sum(th)),
    "dist": lambda th: float(np.sum((th - 0.3) ** 2)),
    "extreme": lambda th: (1e40 if th[0] > np.mean(th) + 0.2 else -1e40 if th[0] < np.mean(th) - 0.4 else float(np.sum(th))),
    "ties": lambda th: float(round(float(np.sum(th)), 0)),
    "offset": lambda th: 1e6 + 1e-4 * float(np.sum(th)),       # distinct finite losses sharing a large offset (relative spread ~1e-10)
    "infmix": lambda th: (float("inf") if th[0] > 0.7 else -float("inf") if th[0] < 0.08 else float(np.sum(th))),
}


def _mk_stub(name):
    from black_it.samplers.base import BaseSampler

    def sample_batch(self, batch_size, search_space, existing_points, existing_losses):
        kb = STATE.get("batch_calls", 0)
        STATE["batch_calls"] = kb + 1
        if ("B", kb) in STATE["faults"]:
            # a failure inside sample_batch itself (the documented extension point), possibly during a de-duplication redraw; for the model it is
            # a failure of the sample() call it happens in
            STATE["b_fault_sample_call"] = STATE["sampler_calls"] - 1
            raise _fault("sampler")
        rows = self.script[self._vp_calls] if self._vp_calls < len(self.script) else []
        rows = np.array(rows, dtype=float).reshape(-1, STATE["dims"])[:batch_size]
        if STATE.get("keep_buffers"):
            # a sampler that owns one array and rewrites it in place at every call (walkers moved with +=): what it returned earlier changes later
            buf = self.__dict__.get("_vp_buf")
            if buf is not None and buf.shape == rows.shape:
                buf[...] = rows
                return buf
            self.__dict__["_vp_buf"] = rows
        return rows

    def __init__(self, batch_size, script, random_state=None):
        BaseSampler.__init__(self, batch_size, random_state=random_state, max_deduplication_passes=0)
        self.script = script

    return type(name, (BaseSampler,), {"__init__": __init__, "sample_batch": sample_batch, "__module__": __name__})


STUB_NAMES = ["StubA", "StubB", "StubC", "StubD", "StubE", "StubF"]
_stubs_made = False


def stub_classes():
    global _stubs_made
    if not _stubs_made:
        for n in STUB_NAMES:
            globals()[n] = _mk_stub(n)
        _stubs_made = True
    return [globals()[n] for n in STUB_NAMES]


def class_names():
    return STUB_NAMES + ["HaltonSampler", "RandomUniformSampler", "RSequenceSampler", "BestBatchSampler",
                         "GaussianProcessSampler", "RandomForestSampler", "XGBoostSampler", "ParticleSwarmSampler", "CORSSampler"]


def cls_index(obj) -> int:
    return class_names().index(type(obj).__name__)


@contextlib.contextmanager
def recording():
    """class-level wrapper of BaseSampler.sample: fault plan, call counting, output recording"""
    from black_it.samplers.base import BaseSampler

    orig = BaseSampler.sample
    rec = {}

    def wrapped(self, search_space, existing_points, existing_losses):
        k = STATE["sampler_calls"]
        STATE["sampler_calls"] += 1
        if ("S", k) in STATE["faults"]:
            raise _fault("sampler")
        out = orig(self, search_space, existing_points, existing_losses)
        calls = getattr(self, "_vp_calls", 0)
        if not hasattr(self, "_vp_obj"):
            self._vp_obj = "foreign"        # a sampler object the harness did not build is at work in the calibration (recorded; the oracles say what is wrong)
        prev = rec.setdefault(self._vp_obj, {}).get(calls)
        if prev is not None and not np.array_equal(prev, out):
            rec.setdefault("_conflicts", []).append((self._vp_obj, calls))
        rec[self._vp_obj][calls] = np.array(out, copy=True)
        rec.setdefault("_order", []).append((self._vp_obj, type(self).__name__, int(self.batch_size), np.array(out, copy=True)))
        self._vp_calls = calls + 1
        return out

    BaseSampler.sample = wrapped
    try:
        yield rec
    finally:
        BaseSampler.sample = orig


@dataclass
class Scn:
    ensemble: int = 1
    simlen: int = 6
    conv: int | None = None
    verbose: bool = False
    njobs: int = 1
    folder: bool = False
    dims: int = 1
    seed: int = 0
    lineup: list = field(default_factory=list)      # [(stub class index, batch_size, script rows per call, ctor seed|None)]
    sched: str = "rr"                               # "rr" | "rl"
    actions: list = field(default_factory=list)     # scripted agent actions (rl)
    faults: list = field(default_factory=list)      # [("S"|"M"|"L", k)]
    loss_table: dict = field(default_factory=dict)  # theta tuple (floats) -> loss
    loss_default: float = 1.0
    ops: list = field(default_factory=list)         # ("C", n) | ("K",) | ("R",) | ("SS", lineup) | ("SCH", lineup, "rr")
    loss_fn: str | None = None                      # name in LOSS_FNS (then the table for the model is derived from the run)
    keep_folder: bool = False
    real_len: int | None = None                     # length of the real series (default: simlen)
    agent: str = "scripted"                         # "scripted" | "eps" (MABEpsilonGreedy)
    agent_opts: tuple = (-1.0, 0.1, 0.0)
    bounds: tuple = ((0.0,), (100.0,))
    precision: tuple = (0.5,)
    dedup_passes: int = 0                           # max_deduplication_passes of the stub samplers (0: sample() returns what sample_batch proposed)
    model_mutates: bool = False                     # the stub model overwrites its parameter argument in place after using it
    model_mixed_dtype: bool = False                 # the stub model returns an integer array for whole-number parameters and a float array otherwise
    alias_slots: tuple = ()                         # (i, j): slot i of the line-up holds the very same sampler object as slot j
    slow_env_reset: float = 0.0                     # seconds the RL environment's reset_state() takes (0 = the stock environment)
    slow_policy_calls: tuple = ()                   # indices of the scripted agent's policy() calls that take 1.4 s
    fault_class: str | None = None                  # which exception class the injected failures have (see FAULT_CLASSES); None: fault_base decides
    keep_buffers: bool = False                      # stub samplers return one array of their own and rewrite it in place at every call
    fault_base: bool = False                        # injected failures are BaseException subclasses that are not Exceptions
    use_folder: str | None = None                   # run in this existing folder instead of a fresh one (a second run in a used folder)


class ScriptedAgent:
    """RL agent whose policy returns scripted actions; records learn() calls"""

    def __init__(self, actions):
        from black_it.utils.seedable import BaseSeedable
        self._bs = BaseSeedable(None)
        self.actions = list(actions)
        self.k = 0
        self.learned = []
        self.chosen = []
        self.random_state = None

    def policy(self, state):
        a = self.actions[self.k] if self.k < len(self.actions) else 0
        if self.k in getattr(self, "slow_calls", ()):
            import time
            time.sleep(self.slow_for)      # a slow decision (a neural or remote policy): the scheduler must wait for it
        self.k += 1
        self.chosen.append(int(a))
        return np.int64(a)

    def learn(self, state, action, reward, next_state):
        self.learned.append((int(action), float(reward)))


def make_builtin(name, bs, opts, cseed):
    import black_it.samplers.best_batch as bb, black_it.samplers.cors as co, black_it.samplers.gaussian_process as gp
    import black_it.samplers.halton as ha, black_it.samplers.particle_swarm as ps, black_it.samplers.r_sequence as rs
    import black_it.samplers.random_forest as rf, black_it.samplers.random_uniform as ru, black_it.samplers.xgboost as xg
    cls = {"HaltonSampler": ha.HaltonSampler, "RandomUniformSampler": ru.RandomUniformSampler, "RSequenceSampler": rs.RSequenceSampler,
           "BestBatchSampler": bb.BestBatchSampler, "GaussianProcessSampler": gp.GaussianProcessSampler,
           "RandomForestSampler": rf.RandomForestSampler, "XGBoostSampler": xg.XGBoostSampler,
           "ParticleSwarmSampler": ps.ParticleSwarmSampler, "CORSSampler": co.CORSSampler}[name]
    return cls(batch_size=bs, random_state=cseed, **(opts or {}))


SMALL_OPTS = {"GaussianProcessSampler": {"candidate_pool_size": 30, "optimize_restarts": 1},
              "RandomForestSampler": {"candidate_pool_size": 30, "n_estimators": 5},
              "XGBoostSampler": {"candidate_pool_size": 30, "n_estimators": 5},
              "CORSSampler": {"max_samples": 12}}


def random_opts(name, rng):
    """random admissible constructor options of a built-in sampler (kept small enough to stay fast)"""
    mdp = rng.choice([5, 5, 0, 1, 3])
    if name in ("HaltonSampler", "RSequenceSampler", "RandomUniformSampler"):
        return {"max_deduplication_passes": mdp}
    if name == "BestBatchSampler":
        return {"max_deduplication_passes": mdp, "a": rng.choice([3.0, 1.0, 0.5, 6.0]), "b": rng.choice([1.0, 2.0, 0.5]), "perturbation_range": rng.choice([6, 2, 3, 10, 40])}
    if name == "GaussianProcessSampler":
        return {"candidate_pool_size": rng.choice([20, 30, 45]), "optimize_restarts": 1, "acquisition": rng.choice(["expected_improvement", "mean"]), "jitter": rng.choice([0.1, 0.01, 1.0]),
                "max_deduplication_passes": mdp}
    if name == "RandomForestSampler":
        return {"candidate_pool_size": rng.choice([20, 30, 45]), "n_estimators": rng.choice([3, 5, 10]), "criterion": rng.choice(["gini", "entropy"]), "n_classes": rng.choice([10, 3, 4]),
                "max_deduplication_passes": mdp}
    if name == "XGBoostSampler":
        return {"candidate_pool_size": rng.choice([20, 30, 45]), "n_estimators": rng.choice([3, 5, 10]), "colsample_bytree": rng.choice([0.3, 1.0]), "learning_rate": rng.choice([0.1, 0.5]),
                "max_depth": rng.choice([5, 2]), "alpha": rng.choice([1.0, 0.0]), "max_deduplication_passes": mdp}
    if name == "ParticleSwarmSampler":
        return {"inertia": rng.choice([0.9, 0.5, 1.0]), "c1": rng.choice([0.1, 1.5, 0.0]), "c2": rng.choice([0.1, 1.5, 0.0]), "global_minimum_across_samplers": rng.random() < 0.5}
    if name == "CORSSampler":
        return {"max_samples": rng.choice([12, 20, 40]), "rho0": rng.choice([0.5, 0.2, 1.0]), "p": rng.choice([1.0, 0.5, 2.0])}
    return {}


def build_samplers(lineup, next_obj):
    out = []
    for (ci, bs, script, cseed) in lineup:
        if isinstance(ci, str):
            s = make_builtin(ci, bs, script if isinstance(script, dict) else SMALL_OPTS.get(ci), cseed)
        else:
            s = stub_classes()[ci](bs, [list(map(list, call)) for call in script], random_state=cseed)
            s.max_deduplication_passes = int(STATE.get("dedup_passes", 0))
        s._vp_obj = next_obj[0]
        s._vp_calls = 0
        next_obj[0] += 1
        out.append(s)
    return out


def tape_of(seed, n=4000):
    g = np.random.default_rng(seed)
    return [int(g.integers(2 ** 32 - 1)) for _ in range(n)]


def gen_position(cal, seed, limit=4000):
    st = cal.random_generator.bit_generator.state
    g = np.random.default_rng(seed)
    for j in range(limit):
        if g.bit_generator.state == st:
            return j
        g.integers(2 ** 32 - 1)
    return -1


def dump(cal, scn: Scn) -> str:
    d = scn.dims
    ps = ";".join(",".join(f2h(x) for x in row) for row in cal.params_samp.tolist())
    ls = ",".join(f2h(x) for x in np.asarray(cal.losses_samp, dtype=float).tolist())
    ser = []
    for ens in cal.series_samp:
        ser.append("/".join(",".join(f2h(x) for x in m[:d, 0].tolist()) + f":{int(m[d, 0])}:{int(m[d + 1, 0])}" for m in ens))
    sch = cal.scheduler
    if type(sch).__name__ == "RoundRobinScheduler":
        s_sched = f"rr:{sch._batch_id}"
    else:
        s_sched = f"rl:{sch._halton_sampler_id}:{0 if sch._best_loss is None else 1}:{getattr(sch, '_vp_consumed', 0)}"
    names = class_names()
    table = ";".join(f"{names.index(k)}:{v}" for k, v in cal.samplers_id_table.items())
    # (a sampler object the harness did not build - it carries no _vp_obj tag - shows as "foreign": the scheduler of the calibration holds something else than
    # the line-up it was given; the model comparison and the oracles then say what is wrong)
    smp = ";".join(f"{cls_index(s)}:{s.batch_size}:{getattr(s, '_vp_obj', 'foreign')}:{getattr(s, '_vp_calls', 0)}:"
                   + ("?" if getattr(s, "_vp_entropy", False) else "-" if s.random_state is None else str(int(s.random_state))) for s in sch.samplers)
    return (f"n={cal.n_sampled_params} b={cal.current_batch_index} params=[{ps}] losses=[{ls}] series=[{';'.join(ser)}] "
            f"bn=[{','.join(str(int(x)) for x in cal.batch_num_samp)}] ms=[{','.join(str(int(x)) for x in cal.method_samp)}] "
            f"sched={s_sched} gen={gen_position(cal, scn.seed)} table=[{table}] smp=[{smp}]")


def canon_result(params, losses) -> str:
    pairs = sorted((",".join(f2h(x) for x in p), f2h(l)) for p, l in zip(np.asarray(params).tolist(), np.asarray(losses, dtype=float).tolist()))
    return ";".join(f"{p}={l}" for p, l in pairs)


def canon_line(line: str) -> str:
    """sort the `result=[…]` pairs of a dump line (ties of argsort are unspecified)"""
    if " result=[" not in line:
        return line
    head, res = line.split(" result=[")
    res = res[:-1]
    pairs = sorted(tuple(x.split("=")) for x in res.split(";")) if res else []
    return head + " result=[" + ";".join(f"{p}={l}" for p, l in pairs) + "]"


def run_real(scn: Scn, model=None):
    """returns (per-op lines, info) — info has recorded sampler outputs, consumed actions, the objects"""
    from black_it.calibrator import Calibrator
    from black_it.schedulers.rl.envs.mab import MABCalibrationEnv
    from black_it.schedulers.rl.rl_scheduler import RLScheduler
    from black_it.schedulers.round_robin import RoundRobinScheduler

    STATE.update(model_calls=0, loss_calls=0, sampler_calls=0, batch_calls=0, fired=0, b_fault_sample_call=None, faults=set(map(tuple, scn.faults)), dims=scn.dims,
                 loss_table={tuple(f2h(x) for x in k): v for k, v in scn.loss_table.items()}, loss_default=scn.loss_default,
                 loss_fn=scn.loss_fn, loss_seen={}, real_args=set(), fault_base=bool(getattr(scn, "fault_base", False)), keep_buffers=bool(getattr(scn, "keep_buffers", False)), fault_class=getattr(scn, "fault_class", None), dedup_passes=int(getattr(scn, "dedup_passes", 0)), model_mutates=bool(getattr(scn, "model_mutates", False)), model_mixed_dtype=bool(getattr(scn, "model_mixed_dtype", False)))
    next_obj = [0]
    folder = (scn.use_folder or tempfile.mkdtemp(prefix="vpcal")) if (scn.folder or any(o[0] in ("K", "R") for o in scn.ops)) else None
    lines, info = [], {"returns": [], "exc": [], "lineups": []}
    model = model or stub_model
    orig_get = RLScheduler.get_next_sampler
    consumed_actions = []

    def get_wrapped(self):
        started = self._best_loss is not None
        smp = orig_get(self)
        if started:
            self._vp_consumed = getattr(self, "_vp_consumed", 0) + 1
            consumed_actions.append([i for i, s in enumerate(self.samplers) if s is smp][0])
        return smp

    RLScheduler.get_next_sampler = get_wrapped
    orig_seed = Calibrator._set_samplers_seeds

    def seeds_wrapped(self):
        orig_seed(self)
        for s in self.scheduler.samplers:
            s._vp_entropy = False

    Calibrator._set_samplers_seeds = seeds_wrapped
    buf = io.StringIO()
    try:
        with recording() as rec, contextlib.redirect_stdout(buf):
            samplers = build_samplers(scn.lineup, next_obj)
            for _s in samplers:
                _s._vp_entropy = True      # a scheduler constructor reseeds its samplers from OS entropy
            info["lineups"].append(samplers)
            kw = {}
            agent = None
            if scn.sched == "rr":
                kw["samplers"] = samplers
            else:
                if getattr(scn, "agent", "scripted") == "eps":
                    from black_it.schedulers.rl.agents.epsilon_greedy import MABEpsilonGreedy
                    agent = MABEpsilonGreedy(len(samplers), alpha=scn.agent_opts[0], eps=scn.agent_opts[1], initial_values=scn.agent_opts[2], random_state=1)
                    agent.chosen = []
                    _pol = agent.policy
                    def _rec_policy(obs, _pol=_pol, agent=agent):
                        a = _pol(obs); agent.chosen.append(int(a)); return a
                    agent.policy = _rec_policy
                else:
                    agent = ScriptedAgent(scn.actions)
                    agent.slow_calls, agent.slow_for = tuple(getattr(scn, "slow_policy_calls", ())), 1.4
                if getattr(scn, "slow_env_reset", 0):
                    class SlowResetEnv(MABCalibrationEnv):
                        """an admissible user environment whose initial state takes a while to build"""
                        def reset_state(self, _d=float(scn.slow_env_reset)):
                            import time
                            time.sleep(_d)
                            return super().reset_state()
                    env = SlowResetEnv(len(samplers))
                else:
                    env = MABCalibrationEnv(len(samplers))
                kw["scheduler"] = RLScheduler(samplers, agent, env)
                for s in kw["scheduler"].samplers:
                    if not hasattr(s, "_vp_obj"):
                        s._vp_obj = next_obj[0]; s._vp_calls = 0; next_obj[0] += 1; s._vp_entropy = True
            rl = scn.real_len or scn.simlen
            real = (1000.0 + np.arange(rl, dtype=float)).reshape(rl, 1)
            info["real_data"] = real.copy()
            cal = Calibrator(loss_function=StubLoss(), real_data=real, model=model,
                             parameters_bounds=[list(scn.bounds[0]), list(scn.bounds[1])], parameters_precision=list(scn.precision),
                             ensemble_size=scn.ensemble, sim_length=scn.simlen, convergence_precision=scn.conv,
                             verbose=scn.verbose, saving_folder=folder if scn.folder else None, random_state=scn.seed,
                             n_jobs=scn.njobs, **kw)
            lines.append("ok " + dump(cal, scn))
            for op in scn.ops:
                if op[0] == "C":
                    try:
                        fired0 = STATE["fired"]
                        if getattr(scn, "slow_policy_calls", ()) or getattr(scn, "slow_env_reset", 0):
                            with short_timeouts() as cut_waits:
                                p, l = _with_watchdog(lambda: cal.calibrate(op[1]))
                            if cut_waits:
                                info.setdefault("finite_waits", []).extend(cut_waits)
                        else:
                            p, l = _with_watchdog(lambda: cal.calibrate(op[1]))
                        if STATE["fired"] > fired0:
                            info.setdefault("swallowed", []).append(len(lines))     # an injected exception was raised inside this call, which returned normally
                        lines.append("ok " + dump(cal, scn) + f" result=[{canon_result(p, l)}]")
                        info["returns"].append((np.array(p), np.array(l)))
                        if scn.folder and os.path.exists(os.path.join(folder, "calibration_params.json")):
                            # what an older release or another tool may have left in the folder under a name this version of the code knows (vp/leftovers.py)
                            from vp import leftovers
                            info.setdefault("planted", []).extend(leftovers.plant_stale_pickles(folder))
                    except Hang:
                        lines.append("hang:calibrate_did_not_return_within_the_watchdog n=? b=?")
                        info["exc"].append("hang")
                        break
                    except tuple(FAULT_CLASSES.values()) as e:
                        lines.append(f"raise:{e.kind} " + dump(cal, scn))
                        info["exc"].append(e.kind)
                    except Exception as e:  # noqa: BLE001  (an exception of the code under test, reported as an outcome)
                        # the injected failure wrapped by the language itself (PEP 479: a StopIteration crossing a generator frame, here joblib's
                        # task generator, becomes RuntimeError with the original as __cause__) still counts as that failure propagating
                        inner, hops = e, 0
                        while inner is not None and not isinstance(inner, tuple(FAULT_CLASSES.values())) and hops < 6:
                            inner, hops = (inner.__cause__ or inner.__context__), hops + 1
                        if inner is not None and isinstance(inner, tuple(FAULT_CLASSES.values())) and isinstance(e, RuntimeError) and "StopIteration" in str(e):
                            lines.append(f"raise:{inner.kind} " + dump(cal, scn))
                            info["exc"].append(inner.kind)
                            continue
                        try:
                            d = dump(cal, scn)
                        except Exception as e2:  # noqa: BLE001
                            d = f"undumpable:{type(e2).__name__}"
                        lines.append(f"raise:{type(e).__name__}:{str(e)[:60].replace(' ', '_')} " + d)
                        info["exc"].append(type(e).__name__)
                elif op[0] == "K":
                    try:
                        cal.create_checkpoint(folder)
                        lines.append("ok " + dump(cal, scn))
                        from vp import leftovers
                        info.setdefault("planted", []).extend(leftovers.plant_stale_pickles(folder))
                    except Exception as e:  # noqa: BLE001
                        lines.append(f"raise:{type(e).__name__}:{str(e)[:60].replace(' ', '_')} n=? b=?")
                elif op[0] == "R":
                    if not os.path.exists(os.path.join(folder, "calibration_params.json")):
                        lines.append("no-checkpoint")
                        continue
                    cal = Calibrator.restore_from_checkpoint(folder, model=model)
                    lines.append("ok " + dump(cal, scn))
                elif op[0] == "SS":
                    ss = build_samplers(op[1], next_obj)
                    info["lineups"].append(ss)
                    cal.set_samplers(ss)
                    lines.append("ok " + dump(cal, scn))
                elif op[0] == "SCH":
                    ss = build_samplers(op[1], next_obj)
                    for _s in ss:
                        _s._vp_entropy = True
                    info["lineups"].append(ss)
                    cal.set_scheduler(RoundRobinScheduler(ss))
                    lines.append("ok " + dump(cal, scn))
            info.update(cal=cal, rec=rec, actions=consumed_actions, agent=agent, folder=folder, stdout=buf.getvalue(), b_fault_sample_call=STATE.get("b_fault_sample_call"),
                        batch_calls=STATE.get("batch_calls", 0))
    finally:
        RLScheduler.get_next_sampler = orig_get
        Calibrator._set_samplers_seeds = orig_seed
        if folder and not scn.keep_folder:
            shutil.rmtree(folder, ignore_errors=True)
    return lines, info


class Hang(Exception):
    pass


@contextlib.contextmanager
def short_timeouts(limit=0.05):
    """Scenarios with a slow agent stand for "an agent that is slower than any fixed bound".  A real sleep can only exceed bounds shorter than
    itself, so during such a scenario every FINITE timeout that the code under test (frames inside the black_it package) passes to
    Thread.join, Queue.get/put, Event.wait or Condition.wait is cut down to `limit` seconds — far below the scripted delay.  Waits
    without a timeout (all there is in the unchanged code) are untouched, so this is inert where the code waits properly."""
    import queue as _q, sys as _sys, threading as _th
    import black_it as _b
    pkg = os.path.dirname(os.path.abspath(_b.__file__))


    o_join, o_get, o_put, o_ewait, o_cwait = _th.Thread.join, _q.Queue.get, _q.Queue.put, _th.Event.wait, _th.Condition.wait
    hits = []

    def cut(t):
        # frame 0 = cut, 1 = the wrapper below, 2 = whoever called join/get/put/wait
        if t is not None and t > limit and os.path.abspath(_sys._getframe(2).f_code.co_filename).startswith(pkg):
            hits.append(t)
            return limit
        return t

    def join(self, timeout=None):
        return o_join(self, cut(timeout))

    def get(self, block=True, timeout=None):
        return o_get(self, block, cut(timeout))

    def put(self, item, block=True, timeout=None):
        return o_put(self, item, block, cut(timeout))

    def ewait(self, timeout=None):
        return o_ewait(self, cut(timeout))

    _th.Thread.join, _q.Queue.get, _q.Queue.put, _th.Event.wait = join, get, put, ewait
    try:
        yield hits
    finally:
        _th.Thread.join, _q.Queue.get, _q.Queue.put, _th.Event.wait = o_join, o_get, o_put, o_ewait


def _with_watchdog(fn, timeout=20.0):
    """run fn in a daemon thread; a call that does not return (deadlock in the code under test) becomes an outcome"""
    import threading
    box = {}

    def target():
        try:
            box["r"] = fn()
        except BaseException as e:  # noqa: BLE001
            box["e"] = e

    # stdout redirection is per-process: keep it; the thread inherits STATE
    t = threading.Thread(target=target, daemon=True, name="vp-calibrate")
    t.start()
    t.join(timeout)
    if t.is_alive():
        raise Hang
    if "e" in box:
        raise box["e"]
    return box["r"]


def _smp_tok(ci, bs, obj, calls, seed):
    return f"{ci} {bs} {obj} {calls} {-1 if seed is None else seed}"


def lean_request(scn: Scn, info) -> str:
    """the `cal.run` request for the same scenario; sampler scripts are what the real objects returned"""
    rec = info["rec"]
    nobj = max([k for k in rec if isinstance(k, int)] + [-1]) + 1
    obj = [0]

    def lineup_toks(lineup, entropy=True):
        toks = [str(len(lineup))]
        for (ci, bs, script, cseed) in lineup:
            toks.append(_smp_tok(class_names().index(ci) if isinstance(ci, str) else ci, bs, obj[0], 0, -2 if entropy else cseed)); obj[0] += 1
        return " ".join(toks)

    lu = lineup_toks(scn.lineup)
    if scn.sched == "rl":
        sched = "rl"
        # the model appends its own Halton (object id = len(line-up)) when the supplied set has none
        if not any(c == "HaltonSampler" for c, *_ in scn.lineup):
            obj[0] += 1
    else:
        sched = "rr"
    ops = []
    for op in scn.ops:
        if op[0] == "C":
            ops.append(f"C {op[1]}")
        elif op[0] == "K":
            ops.append("K")
        elif op[0] == "R":
            ops.append("R")
        elif op[0] == "SS":
            ops.append("SS " + lineup_toks(op[1], entropy=False))
        elif op[0] == "SCH":
            ops.append("SCH " + lineup_toks(op[1]) + " rr")
    nobj = max(nobj, obj[0])
    scripts = []
    for o in range(nobj):
        calls = rec.get(o, {})
        ncalls = max(list(calls) + [-1]) + 1
        cs = []
        for c in range(ncalls):
            rows = calls.get(c)
            if rows is None:
                cs.append("0")
            else:
                cs.append(f"{len(rows)} " + " ".join(f2h(x) for x in np.asarray(rows).flatten().tolist()) if len(rows) else "0")
        scripts.append(f"{ncalls} " + " ".join(cs) if ncalls else "0")
    lt = scn.loss_table
    lt_toks = " ".join(" ".join(f2h(x) for x in k) + " " + f2h(v) for k, v in lt.items())
    n_lt = len(lt)
    if scn.loss_fn is not None:
        seen = STATE["loss_seen"]
        lt_toks = " ".join(" ".join(k) + " " + f2h(v) for k, v in seen.items()); n_lt = len(seen)
    tape = tape_of(scn.seed, 600)
    toks = [f"cal.run {scn.ensemble} {scn.simlen} {-1 if scn.conv is None else scn.conv} {int(scn.verbose)} {scn.njobs} {int(scn.folder)}",
            str(scn.dims), lu, sched,
            f"{len(tape)} " + " ".join(map(str, tape)),
            f"{len(info['actions'])} " + " ".join(map(str, info["actions"])) if info["actions"] else "0",
            (lambda fl_: f"{len(fl_)} " + " ".join(f"{k} {i}" for k, i in fl_) if fl_ else "0")(
                [(k, i) for k, i in scn.faults if k != "B"] + ([("S", info["b_fault_sample_call"])] if info.get("b_fault_sample_call") is not None else [])),
            f"{nobj} " + " ".join(scripts) if nobj else "0",
            f"{n_lt} " + lt_toks if n_lt else "0",
            f2h(scn.loss_default),
            f"{len(ops)} " + " ".join(ops) if ops else "0"]
    return " ".join(toks)


# ----------------------------------------------------------------------------- scenario generators
def gen_rows(rng, n, dims, bounds):
    return [[float(rng.randint(0, 200)) * 0.5 if rng.random() < 0.7 else round(rng.uniform(bounds[0][j], bounds[1][j]), 3)
             for j in range(dims)] for _ in range(n)]


def gen_stub_lineup(rng, n_samplers, dims, bounds, calls=24, classes=None):
    lineup = []
    for i in range(n_samplers):
        ci = rng.choice(classes) if classes else rng.randrange(len(STUB_NAMES))
        bs = rng.randint(1, 5)
        script = [gen_rows(rng, bs, dims, bounds) for _ in range(calls)]
        lineup.append((ci, bs, script, rng.choice([None, None, rng.randrange(1000)])))
    return lineup


def gen_loss_table(rng, lineup, special=()):
    thetas = [tuple(r) for (_, _, script, _) in lineup if not isinstance(script, dict) and script for call in script for r in call]
    table = {}
    for th in thetas:
        if rng.random() < 0.6:
            table[th] = rng.choice([rng.random(), rng.random() * 10, 0.5, 0.25, 1e300, float("inf"), -3.0, 2.0] + list(special))
    return table


def gen_scn(rng, *, sched="rr", restore=False, faults=False, conv=False, set_ops=False, max_batches=8, njobs=1) -> Scn:
    dims = rng.choice([1, 1, 2, 3, 1, 2, 3, 11])          # sometimes more than ten parameters
    bounds = (tuple(0.0 for _ in range(dims)), tuple(100.0 for _ in range(dims)))
    n_s = rng.randint(1, 6)
    lineup = gen_stub_lineup(rng, n_s, dims, bounds)
    scn = Scn(ensemble=rng.randint(1, 4), simlen=rng.choice([dims + 2, dims + 3, max(9, dims + 2)]), dims=dims, seed=rng.randrange(10 ** 6),
              verbose=rng.random() < 0.3, njobs=njobs, folder=rng.random() < 0.4 or restore, lineup=lineup, sched=sched,
              bounds=bounds, precision=tuple(0.5 for _ in range(dims)))
    special = ()
    if conv:
        scn.conv = rng.randint(0, 12)
        h = 0.5 * 10.0 ** (-scn.conv)
        special = (0.0, h, float(np.nextafter(h, 1)), float(np.nextafter(h, 0)), -h, h / 3, 0.4 * 10.0 ** (-scn.conv), -0.0)
    scn.loss_table = gen_loss_table(rng, lineup, special * 3 if conv else ())
    scn.loss_default = rng.choice([1.0, 3.5, 0.75])
    total = 0
    ops = []
    while total < max_batches and len(ops) < 8:
        k = rng.choice(["C", "C", "C", "K", "R", "SS", "SCH"])
        if k == "C":
            n = rng.randint(1, 4); ops.append(("C", n)); total += n
        elif k == "K" and restore:
            ops.append(("K",))
        elif k == "R" and restore and ops:
            ops.append(("R",))
        elif k == "SS" and set_ops:
            ops.append(("SS", gen_stub_lineup(rng, rng.randint(1, 4), dims, bounds)))
        elif k == "SCH" and set_ops and sched == "rr":
            ops.append(("SCH", gen_stub_lineup(rng, rng.randint(1, 4), dims, bounds), "rr"))
    if not ops:
        ops = [("C", 2)]
    if rng.random() < 0.3:
        # a call that runs no batch at all (calibrate(0)): as the first call, between two calls, or as the last one
        ops.insert(rng.randint(0, len(ops)), ("C", 0))
    scn.ops = ops
    if sched == "rl":
        scn.actions = [rng.randrange(n_s) for _ in range(60)]
    if faults:
        kind = rng.choice(["S", "M", "L"])
        scn.faults = [(kind, rng.randrange(0, 12 if kind != "M" else 30))]
    return scn


def compare(scn: Scn, lines, info):
    """run the Lean model on the same scenario; returns (ok, first differing op index, impl line, model line)"""
    from vp.core import lean_run
    req = lean_request(scn, info)
    ans = lean_run([req])[0]
    return compare_answer(lines, ans)


def compare_answer(lines, ans):
    if ans == "bad-op":
        return False, -1, "(request)", "bad-op"
    model = ans.split(" || ")
    impl = lines[1:]
    for i, (a, b) in enumerate(zip(impl, model)):
        if canon_line(a) != canon_line(b):
            return False, i, canon_line(a), canon_line(b)
    if len(impl) != len(model):
        return False, min(len(impl), len(model)), f"{len(impl)} ops", f"{len(model)} ops"
    return True, None, None, None


def diff_fields(a: str, b: str) -> list[str]:
    fa = dict(x.split("=", 1) for x in a.split(" ")[1:] if "=" in x)
    fb = dict(x.split("=", 1) for x in b.split(" ")[1:] if "=" in x)
    out = [k for k in fa if fa.get(k) != fb.get(k)]
    if a.split(" ")[0] != b.split(" ")[0]:
        out.insert(0, "status")
    return out
