"""Shared machinery of the black-it verification harness.

Everything random derives from one `random.Random(VERIF_SEED)`; the Lean model is reached through the
compiled line-protocol driver (`lean/.lake/build/bin/driver`), rebuilt by `lake build` when stale.
"""
from __future__ import annotations

import hashlib
import json
import os
import random
import re
import struct
import subprocess
import sys
import time
from pathlib import Path

VERIF = Path(__file__).resolve().parents[2]
LEAN = VERIF / "lean"
DRIVER = LEAN / ".lake" / "build" / "bin" / "driver"
REPO = Path(os.environ.get("BLACK_IT_REPO", "/repo"))
EVIDENCE = VERIF / "evidence"
REPLAYS = VERIF / "replays"
CORPUS = VERIF / "corpus"
KNOWN = VERIF / "known_findings.json"

ALLOWED_AXIOMS = {"propext", "Classical.choice", "Quot.sound"}
FORBIDDEN = re.compile(
    r"\b(sorry|admit|native_decide|bv_decide|implemented_by|unsafe)\b|^\s*axiom\s|maxHeartbeats\s+0\b"
)


class HarnessError(Exception):
    """Infrastructure failure (exit 2) — never reported as a violation."""


# ---------------------------------------------------------------- floats on the wire
def f2h(x: float) -> str:
    x = float(x)
    if x != x:
        return "7ff8000000000000"      # one NaN: sign and payload are not observable behaviour (Lean's Float.toBits canonicalises too)
    return struct.pack(">d", x).hex()


def h2f(h: str) -> float:
    return struct.unpack(">d", bytes.fromhex(h))[0]


def fl(xs) -> str:
    xs = list(xs)
    return f"{len(xs)} " + " ".join(f2h(x) for x in xs) if xs else "0"


def frac_s(q) -> str:
    from fractions import Fraction

    q = Fraction(q)
    return f"{q.numerator}/{q.denominator}" if q.denominator != 1 else str(q.numerator)


# ---------------------------------------------------------------- Lean side
_built = False


def lean_build() -> tuple[bool, str]:
    """`lake build` (no-op when fresh). Returns (ok, log)."""
    global _built
    env = dict(os.environ)
    p = subprocess.run(["lake", "build"], cwd=LEAN, capture_output=True, text=True, env=env)
    _built = p.returncode == 0
    return _built, (p.stdout + p.stderr)[-6000:]


def lean_run(lines: list[str], timeout: int = 3600) -> list[str]:
    """Feed request lines to the model driver; one answer line per request."""
    if not DRIVER.exists():
        raise HarnessError(f"driver not built: {DRIVER}")
    data = "\n".join(lines) + "\n"
    p = subprocess.run([str(DRIVER)], input=data, capture_output=True, text=True, timeout=timeout)
    if p.returncode != 0:
        raise HarnessError(f"driver failed rc={p.returncode}: {p.stderr[-2000:]}")
    out = p.stdout.split("\n")
    if out and out[-1] == "":
        out.pop()
    if len(out) != len(lines):
        raise HarnessError(f"driver answered {len(out)} lines for {len(lines)} requests")
    return out


def source_audit(files: list[Path]) -> list[str]:
    """grep the Lean sources of a property for forbidden constructs (comments stripped)."""
    hits = []
    for f in files:
        txt = f.read_text()
        txt = re.sub(r"/-.*?-/", lambda m: "\n" * m.group(0).count("\n"), txt, flags=re.S)
        for i, line in enumerate(txt.split("\n"), 1):
            code = line.split("--")[0]
            if FORBIDDEN.search(code):
                hits.append(f"{f.relative_to(VERIF)}:{i}: {line.strip()}")
    return hits


def lean_closure(module_file: Path) -> list[Path]:
    """the module and every BlackIt module it (transitively) imports"""
    seen, todo = [], [module_file]
    while todo:
        f = todo.pop()
        if f in seen or not f.exists():
            continue
        seen.append(f)
        for m in re.findall(r"^import\s+(BlackIt[\w.]*)", f.read_text(), flags=re.M):
            todo.append(LEAN / (m.replace(".", "/") + ".lean"))
    return seen


def theorems_in(module_file: Path) -> list[str]:
    """fully qualified names of every `theorem` declared in a property file"""
    names, ns = [], []
    for line in module_file.read_text().split("\n"):
        m = re.match(r"^namespace\s+(\S+)", line)
        if m:
            ns.append(m.group(1))
            continue
        m = re.match(r"^end\s+(\S+)", line)
        if m and ns and ns[-1] == m.group(1):
            ns.pop()
            continue
        m = re.match(r"^(?:private\s+|protected\s+)?theorem\s+(\S+)", line)
        if m:
            names.append(".".join(ns + [m.group(1)]))
    return names


def axiom_audit(prop: str, module: str, theorems: list[str]) -> dict:
    """`#print axioms` for every theorem; returns {theorem: [axioms]} (raises HarnessError when lean fails)."""
    d = LEAN / ".audit"
    d.mkdir(exist_ok=True)
    f = d / f"Audit{prop}.lean"
    f.write_text(f"import {module}\n" + "".join(f"#print axioms {t}\n" for t in theorems))
    p = subprocess.run(["lake", "env", "lean", str(f)], cwd=LEAN, capture_output=True, text=True)
    out = p.stdout + p.stderr
    res: dict[str, list[str] | None] = {t: None for t in theorems}
    for m in re.finditer(r"'(\S+)' depends on axioms: \[([^\]]*)\]", out, flags=re.S):
        res[m.group(1)] = [a.strip() for a in m.group(2).replace("\n", " ").split(",") if a.strip()]
    for m in re.finditer(r"'(\S+)' does not depend on any axioms", out):
        res[m.group(1)] = []
    res["_rc"] = p.returncode  # type: ignore[assignment]
    res["_log"] = out[-3000:] if p.returncode != 0 else ""  # type: ignore[assignment]
    return res


# ---------------------------------------------------------------- known findings
def load_known() -> dict:
    if KNOWN.exists():
        return json.loads(KNOWN.read_text())
    return {"findings": [], "fixed": []}


# ---------------------------------------------------------------- the check object
class Check:
    """One run of one property's check: collects proof obligations, correspondence statistics,
    violations, known findings; writes evidence; decides the exit code (DESIGN.md §2.6)."""

    def __init__(self, prop: str, tier: str, seed: int, module: str | None):
        self.prop, self.tier, self.seed = prop, tier, seed
        self.module = module
        self.rng = random.Random(seed * 1000003 + int(prop[1:]))
        self.t0 = time.time()
        self.evaluations = 0
        self.case_hashes: set[str] = set()
        self.nontrivial_hashes: set[str] = set()
        self.samples: list = []
        self.hist: dict[str, int] = {}
        self.rule = ""
        self.obligations: list[str] = []
        self.discharged: list[str] = []
        self.partial: list[str] = []
        self.proof_problems: list[str] = []
        self.corr_breaks: list[dict] = []      # model/impl disagreements
        self.oracle_fails: list[dict] = []     # concrete failing inputs on the implementation
        self.known_hits: dict[str, dict] = {}
        self.contracts: list[dict] = []
        self.assumptions: list[str] = []
        self.trusted_base: list[str] = []
        self.extra: dict = {}
        self.known = [k for k in load_known()["findings"] if k["property"] == prop]

    # -- statistics
    def count(self, key: str, n: int = 1):
        self.hist[key] = self.hist.get(key, 0) + n

    def case(self, canon, nontrivial: bool, sample=None):
        """register one explored case (canon: any json-able canonical form)"""
        self.evaluations += 1
        h = hashlib.sha1(json.dumps(canon, sort_keys=True, default=str).encode()).hexdigest()
        self.case_hashes.add(h)
        if nontrivial:
            self.nontrivial_hashes.add(h)
        if sample is not None and len(self.samples) < 6 and nontrivial:
            self.samples.append(sample)

    # -- proof side
    def proof_stage(self, prop_file: Path, partial: list[str] | None = None):
        ok, log = lean_build()
        if not ok:
            self.proof_problems.append("lake build failed: " + log[-1500:])
            return
        ths = theorems_in(prop_file)
        self.obligations = ths
        self.partial = [t for t in ths if t.endswith("_partial")] + (partial or [])
        hits = source_audit(lean_closure(prop_file))
        if hits:
            self.proof_problems.append("forbidden construct in Lean sources: " + "; ".join(hits[:5]))
        res = axiom_audit(self.prop, self.module, ths)
        if res["_rc"] != 0:
            self.proof_problems.append("axiom audit failed: " + str(res["_log"]))
        for t in ths:
            ax = res.get(t)
            if ax is None:
                self.proof_problems.append(f"theorem {t} not found by #print axioms")
            elif not set(ax) <= ALLOWED_AXIOMS:
                self.proof_problems.append(f"theorem {t} uses axioms {ax}")
            else:
                self.discharged.append(t)
        if self.tier == "thorough":
            # independent re-check of the compiled property module by Lean's external checker
            p = subprocess.run(["lake", "env", "leanchecker", self.module], cwd=LEAN, capture_output=True, text=True)
            self.extra["leanchecker"] = {"module": self.module, "rc": p.returncode, "output": (p.stdout + p.stderr)[-300:]}
            if p.returncode != 0:
                self.proof_problems.append("leanchecker rejected " + self.module + ": " + (p.stdout + p.stderr)[-500:])

    # -- correspondence / oracle side
    def disagree(self, what: str, detail: dict):
        """model and implementation differ on a case"""
        if len(self.corr_breaks) < 50:
            self.corr_breaks.append({"what": what, **detail})
        self.count("corr_break")

    def fail(self, what: str, detail: dict, signature: str | None = None):
        """the implementation-side oracle found a concrete input on which the property fails"""
        if signature is not None:
            for k in self.known:
                if k["signature"] == signature:
                    self.known_hits.setdefault(signature, {"finding": k, "example": {"what": what, **detail}, "n": 0})
                    self.known_hits[signature]["n"] += 1
                    return
        if len(self.oracle_fails) < 50:
            self.oracle_fails.append({"what": what, "signature": signature, **detail})
        self.count("oracle_fail")

    # -- verdict
    def finish(self) -> int:
        wall = time.time() - self.t0
        REPLAYS.mkdir(exist_ok=True)
        violation_line = None
        if self.oracle_fails:
            rp = REPLAYS / f"{self.prop}-seed{self.seed}-{self.tier}.json"
            rp.write_text(json.dumps({
                "property": self.prop, "kind": "failing-input", "seed": self.seed, "tier": self.tier,
                "failing_inputs": self.oracle_fails[:10], "correspondence_breaks": self.corr_breaks[:10],
                "proof_problems": self.proof_problems,
                "how_to_replay": f"/venv/bin/python harness/check.py {self.prop} --replay {rp.relative_to(VERIF)}",
            }, indent=1, default=str))
            violation_line = f"VIOLATION property={self.prop} replay={rp}"
        elif self.corr_breaks or self.proof_problems:
            rp = REPLAYS / f"{self.prop}-seed{self.seed}-{self.tier}.json"
            rp.write_text(json.dumps({
                "property": self.prop, "kind": "no-failing-input-found", "seed": self.seed, "tier": self.tier,
                "no_longer_checks": (["correspondence " + b["what"] for b in self.corr_breaks[:10]]
                                     + ["proof: " + p for p in self.proof_problems]),
                "correspondence_breaks": self.corr_breaks[:10],
                "note": "model and implementation disagree (or a proof obligation no longer checks) but the "
                        "implementation-side oracle found no input on which the property itself fails",
            }, indent=1, default=str))
            violation_line = f"VIOLATION property={self.prop} replay={rp} no-failing-input-found"
        for sig, hit in self.known_hits.items():
            print(f"KNOWN-FINDING: property={self.prop} {sig}: {hit['finding']['what']} (hit {hit['n']}x this run)")
        n_obl = max(len(self.obligations), 0)
        cov = {
            "obligations": n_obl,
            "discharged": len(self.discharged),
            "checker_cmd": f"cd lean && lake build && lake env lean .audit/Audit{self.prop}.lean  "
                           f"(#print axioms of every theorem of {self.module}; allowed: {sorted(ALLOWED_AXIOMS)})",
            "trusted_base": self.trusted_base or ["Lean 4.33 kernel", "Mathlib v4.33 (single modules)",
                                                    "python correspondence harness + lean driver"],
            "theorems": self.obligations,
            "partial_theorems": self.partial,
            "evaluations": self.evaluations,
            "distinct_cases": len(self.case_hashes),
            "distinct_nontrivial": len(self.nontrivial_hashes),
            "rule": self.rule,
            "samples": self.samples[:6],
            "input_distribution": dict(sorted(self.hist.items())),
            "component_contracts": self.contracts,
            "correspondence_disagreements": len(self.corr_breaks),
            "known_findings_confirmed": {s: h["n"] for s, h in self.known_hits.items()},
            **self.extra,
        }
        ev = {
            "property_id": self.prop, "tier": self.tier, "seed": self.seed, "level": "proof",
            "coverage": cov,
            "assumptions": self.assumptions,
            "wall_s": round(wall, 2),
            "violations": len(self.oracle_fails) + (1 if (violation_line and not self.oracle_fails) else 0),
        }
        EVIDENCE.mkdir(exist_ok=True)
        (EVIDENCE / f"{self.prop}.json").write_text(json.dumps(ev, indent=1, default=str) + "\n")
        print(f"[{self.prop}] tier={self.tier} seed={self.seed} theorems={len(self.discharged)}/{n_obl} "
              f"cases={self.evaluations} distinct_nontrivial={len(self.nontrivial_hashes)} "
              f"disagreements={len(self.corr_breaks)} failing_inputs={len(self.oracle_fails)} "
              f"known={len(self.known_hits)} wall={wall:.1f}s")
        if violation_line:
            print(violation_line)
            return 1
        return 0


def rerun_by_seed(prop: str, r: dict) -> int:
    """replay of last resort for failing inputs that are fully determined by (VERIF_SEED, tier): run the check again with the recorded ones"""
    import subprocess
    print(f"{prop} replay: these cases are determined by VERIF_SEED; re-running the check with the recorded seed {r.get('seed', 0)} ({r.get('tier', 'quick')})")
    return subprocess.call([sys.executable, str(Path(__file__).resolve().parents[1] / "check.py"), prop, "--tier", r.get("tier", "quick")],
                           env=dict(os.environ, VERIF_SEED=str(r.get("seed", 0))))
