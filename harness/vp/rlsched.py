"""Forced-schedule execution of the real RLScheduler / CalibrationEnv threads (no change to /repo).

Every synchronisation point of the two threads (queue put/get, flag read/write, Thread.start/join, agent
policy/learn) parks at a controller; exactly one thread runs at a time and the controller decides who.  The
trace of real events is translated into moves of the Lean model (`BlackIt.RL.stepM/stepA`)."""
from __future__ import annotations

import queue
import threading
import types

import numpy as np


class Deadlock(Exception):
    pass


class Controller:
    def __init__(self, chooser):
        self.lock = threading.Condition()
        self.parked = {}          # tid -> (event, enabled_fn)
        self.live = set()
        self.grant = None
        self.events = []          # (tid, event) in grant order
        self.snaps = []           # snapshot taken when the system is quiescent, before each grant
        self.chooser = chooser
        self.deadlock = None
        self.snapshot = lambda: None
        self.choice_points = 0

    def register(self, tid):
        with self.lock:
            self.live.add(tid)
            self.lock.notify_all()

    def finish(self, tid):
        with self.lock:
            self.live.discard(tid)
            self.lock.notify_all()

    def yield_point(self, tid, event, enabled=lambda: True):
        with self.lock:
            self.parked[tid] = (event, enabled)
            self.lock.notify_all()
            while self.grant != tid:
                self.lock.wait()
            self.grant = None
            del self.parked[tid]

    def run(self, done):
        while True:
            with self.lock:
                while not (self.grant is None and set(self.parked) == self.live):
                    if not self.lock.wait(timeout=20):
                        self.deadlock = ("timeout", dict((t, p[0]) for t, p in self.parked.items()))
                        return
                if not self.live:
                    self.snaps.append(self.snapshot())
                    return
                self.snaps.append(self.snapshot())
                en = sorted(t for t, (ev, f) in self.parked.items() if f())
                if not en:
                    self.deadlock = ("no thread enabled", dict((t, p[0]) for t, p in self.parked.items()))
                    # release everybody so the process can finish: mark and bail out
                    return
                if len(en) > 1:
                    self.choice_points += 1
                t = self.chooser(en, self)
                self.events.append((t, self.parked[t][0]))
                self.grant = t
                self.lock.notify_all()


def tid():
    return threading.current_thread().name


class CtlQueue(queue.Queue):
    def __init__(self, ctl, name):
        super().__init__()
        self.ctl, self.qname = ctl, name
        self.tags = []
        self.tagger = lambda item: None
        self.last_got = {}

    def put(self, item, *a, **k):
        self.ctl.yield_point(tid(), ("put", self.qname, item is None))
        self.tags.append(self.tagger(item))
        super().put(item, *a, **k)

    def get(self, *a, **k):
        block = a[0] if a else k.get("block", True)
        timeout = a[1] if len(a) > 1 else k.get("timeout")
        if not block or timeout is not None:
            # a non-blocking / timed get may return empty-handed at any moment: it is always enabled and, when the
            # controller grants it on an empty queue, the timeout is deemed to have expired
            self.ctl.yield_point(tid(), ("get", self.qname))
            if self.qsize() == 0:
                raise queue.Empty
            r = super().get(False)
        else:
            self.ctl.yield_point(tid(), ("get", self.qname), enabled=lambda: self.qsize() > 0)
            r = super().get(*a, **k)
        self.last_got[tid()] = self.tags.pop(0)
        return r


def run_real(script, losses, agent_kind, agent_seed, chooser, scripted_actions=None):
    """script: [(n_batches, fail)] per session.  Returns a dict with events, moves, tape, snapshots, logs."""
    import black_it.schedulers.rl.rl_scheduler as rlmod
    from black_it.samplers.halton import HaltonSampler
    from black_it.samplers.random_uniform import RandomUniformSampler
    from black_it.schedulers.rl.agents.epsilon_greedy import MABEpsilonGreedy
    from black_it.schedulers.rl.envs.mab import MABCalibrationEnv
    from black_it.schedulers.rl.rl_scheduler import RLScheduler

    ctl = Controller(chooser)

    class CtlThread(threading.Thread):
        def __init__(s, target=None, **kw):
            def wrapped():
                ctl.yield_point("A", ("begin",))
                try:
                    target()
                finally:
                    ctl.finish("A")
            super().__init__(target=wrapped, name="A", daemon=True)

        def start(s):
            ctl.yield_point(tid(), ("spawn",))
            ctl.register("A")
            super().start()

        def join(s, *a, **k):
            timeout = a[0] if a else k.get("timeout")
            if timeout is not None:
                # a timed join may give up while the thread is still running: always enabled; granted while the agent
                # is alive = the timeout expired
                ctl.yield_point(tid(), ("join",))
                if "A" in ctl.live:
                    return
                super().join()
            else:
                ctl.yield_point(tid(), ("join",), enabled=lambda: "A" not in ctl.live)
                super().join()

    class CtlRLScheduler(RLScheduler):
        def _g(self):
            if self.__dict__.get("_ctl_on"):
                ctl.yield_point(tid(), ("flag_r",))
            return self.__dict__["_stopped_v"]

        def _s(self, v):
            if self.__dict__.get("_ctl_on"):
                ctl.yield_point(tid(), ("flag_w", v))
            self.__dict__["_stopped_v"] = v
        _stopped = property(_g, _s)

    n_act = 2
    if agent_kind == "eps":
        base = MABEpsilonGreedy(n_act, alpha=-1.0, eps=0.3, random_state=agent_seed)
    else:
        base = MABEpsilonGreedy(n_act, alpha=0.5, eps=0.0, random_state=agent_seed)
    tape, learned = [], []
    real_policy, real_learn = base.policy, base.learn
    k_pol = [0]

    def policy(obs):
        ctl.yield_point(tid(), ("policy",))
        a = real_policy(obs)
        if scripted_actions is not None:
            a = scripted_actions[k_pol[0] % len(scripted_actions)]
        k_pol[0] += 1
        tape.append(int(a))
        return np.int64(a)

    def learn(state, action, reward, next_state):
        ctl.yield_point(tid(), ("learn",))
        learned.append((outq.last_got.get("A"), int(action), float(reward)))
        real_learn(state, action, reward, next_state)

    base.policy, base.learn = policy, learn
    env = MABCalibrationEnv(n_act)
    old_threading = rlmod.threading
    rlmod.threading = types.SimpleNamespace(Thread=CtlThread)
    try:
        sch = CtlRLScheduler([HaltonSampler(1), RandomUniformSampler(1)], base, env, random_state=3)
        actq = CtlQueue(ctl, "action"); outq = CtlQueue(ctl, "outcome")
        sch._in_queue = env._out_queue = actq
        sch._out_queue = env._in_queue = outq
        sch.__dict__["_ctl_on"] = True
        executed, session_ends, errors = [], [], []
        state = {"batch": 0, "phase": "idle"}
        outq.tagger = lambda item: None if item is None else state["batch"]
        actq.tagger = lambda item: int(item)
        ctl.snapshot = lambda: {"aq": list(actq.queue), "oq": [t for t in outq.tags], "ex": list(executed),
                                "le": [(b, a) for (b, a, r) in learned], "b": state["batch"], "alive": "A" in ctl.live}
        finished = [False]

        class Boom(Exception):
            pass

        def main():
            try:
                li = 0
                for (n, fail) in script:
                    try:
                        with sch.session():
                            for i in range(n + (1 if fail else 0)):
                                will_fail = fail and i == n
                                boot = sch._best_loss is None
                                if boot:
                                    ctl.yield_point("M", ("marker", "batch_boot"))
                                smp = sch.get_next_sampler()
                                idx = [j for j, s in enumerate(sch.samplers) if s is smp][0]
                                if will_fail:
                                    ctl.yield_point("M", ("marker", "fail"))
                                    raise Boom
                                state["batch"] += 1
                                loss = losses[li % len(losses)]; li += 1
                                if boot:
                                    ctl.yield_point("M", ("marker", "update_boot"))
                                sch.update(state["batch"], np.array([[float(state["batch"])]]), np.array([loss]), None)
                                if not boot:
                                    executed.append((state["batch"], idx))
                            if not fail:
                                ctl.yield_point("M", ("marker", "end"))
                            state["phase"] = "ending"
                    except Boom:
                        pass
                    state["phase"] = "idle"
                    ctl.yield_point("M", ("marker", "drained"))
                    session_ends.append({"aq": list(actq.queue), "oq": list(outq.tags), "alive": "A" in ctl.live,
                                         "le": [(b, a) for (b, a, r) in learned], "ex": list(executed)})
            except Exception as e:  # noqa: BLE001
                errors.append(f"{type(e).__name__}: {e}")
            finally:
                finished[0] = True
                ctl.finish("M")

        ctl.register("M")
        t = threading.Thread(target=main, name="M", daemon=True)
        t.start()
        ctl.run(lambda: finished[0])
    finally:
        rlmod.threading = old_threading
    # translate events into model moves
    moves, move_snap_idx = [], []
    in_end = False
    for i, (who, ev) in enumerate(ctl.events):
        mv = None
        if who == "M":
            if ev[0] == "spawn":
                mv = True; in_end = False
            elif ev[0] == "marker" and ev[1] in ("batch_boot", "update_boot", "end", "fail", "drained"):
                mv = True
                if ev[1] in ("end", "fail"):
                    in_end = True
                if ev[1] == "drained":
                    in_end = False
            elif ev[0] == "get" and not in_end:
                mv = True
            elif ev[0] == "put":
                mv = True
            elif ev[0] == "join":
                mv = True
        else:
            if ev[0] in ("policy", "put", "get", "learn"):
                mv = False
        if mv is not None:
            moves.append(mv)
            move_snap_idx.append(i + 1)          # the snapshot taken before the NEXT grant = state after this event
    return {"events": ctl.events, "moves": moves, "snap_idx": move_snap_idx, "snaps": ctl.snaps, "tape": tape,
            "learned": learned, "executed": executed, "session_ends": session_ends, "errors": errors,
            "deadlock": ctl.deadlock, "choice_points": ctl.choice_points, "finished": finished[0]}
