"""child process: one whole calibration in a fresh interpreter; prints a digest of its history and return values"""
import hashlib
import json
import os
import sys

sys.path.insert(0, os.path.join(os.path.dirname(__file__), ".."))
import numpy as np  # noqa: E402

from vp import twin  # noqa: E402

cfg = json.loads(sys.argv[1])
cfg["lineup"] = [tuple(x) for x in cfg["lineup"]]
n = int(sys.argv[2])
h, rets, _ = twin.run_segments(cfg, [(n, "end")], use_folder=False)
d = hashlib.sha256()
for k in sorted(h):
    d.update(k.encode()); d.update(np.ascontiguousarray(h[k]).tobytes())
for p, l in rets:
    d.update(np.ascontiguousarray(p).tobytes()); d.update(np.asarray(l, dtype=float).tobytes())
print("DIGEST", d.hexdigest())
