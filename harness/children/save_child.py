"""child process: perform one real checkpoint save (killed by strace at a chosen system call).

With a fourth argument "wait" the child first performs a warm-up save into a scratch folder (so that every lazy import and
one-off initialisation has happened), announces READY, stops itself, and performs the real save once it is continued — the harness
attaches strace while it is stopped, so system-call counts start at the save and are reproducible."""
import os
import pickle
import shutil
import signal
import sys
import tempfile

backend, folder, statefile = sys.argv[1], sys.argv[2], sys.argv[3]
sys.path.insert(0, os.path.join(os.path.dirname(__file__), ".."))
args = pickle.load(open(statefile, "rb"))
kw = getattr(args, "kw", {})
if backend == "json":
    from black_it.utils import json_pandas_checkpointing as m
else:
    from black_it.utils import sqlite3_checkpointing as m
    kw = {}
if len(sys.argv) > 4 and sys.argv[4] == "wait":
    warm = tempfile.mkdtemp(prefix="vpc06warm")
    try:
        m.save_calibrator_state(warm, *args, **kw)
    finally:
        shutil.rmtree(warm, ignore_errors=True)
    try:  # allow a non-parent tracer even under YAMA ptrace_scope=1 (PR_SET_PTRACER, PR_SET_PTRACER_ANY)
        import ctypes
        ctypes.CDLL(None).prctl(0x59616D61, ctypes.c_ulong(-1 & (2 ** 64 - 1)), 0, 0, 0)
    except Exception:  # noqa: BLE001
        pass
    print("READY", flush=True)
    os.kill(os.getpid(), signal.SIGSTOP)
m.save_calibrator_state(folder, *args, **kw)
print("SAVED", flush=True)
