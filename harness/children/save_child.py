"""child process: perform one real checkpoint save (killed by strace at a chosen system call)"""
import pickle
import sys

backend, folder, statefile = sys.argv[1], sys.argv[2], sys.argv[3]
args = pickle.load(open(statefile, "rb"))
if backend == "json":
    from black_it.utils import json_pandas_checkpointing as m
    m.save_calibrator_state(folder, *args)
else:
    from black_it.utils import sqlite3_checkpointing as m
    m.save_calibrator_state(folder, *args)
print("SAVED")
