#!/usr/bin/env python3
"""Import a seeded change from a sub-agent's scratch worktree: seeded_import.py <worktree> <dir-name> <property> <summary> <needs> [also_run,...]"""
import json, re, subprocess, sys
from pathlib import Path

wt, name, prop, summary, needs = sys.argv[1:6]
also = sys.argv[6].split(",") if len(sys.argv) > 6 and sys.argv[6] else []
d = Path(__file__).resolve().parents[1] / "seeded" / name
d.mkdir(parents=True, exist_ok=True)
diff = subprocess.run(["git", "-C", wt, "diff", "--", "black_it"], capture_output=True, text=True).stdout
assert diff.strip(), "empty diff"
(d / "patch.diff").write_text(diff)
demo = Path(wt, "demo.py").read_text()
if wt in demo:
    print("NOTE: demo.py mentions the worktree path; occurrences:", [l for l in demo.split("\n") if wt in l][:5])
    demo = re.sub(r"^.*sys\.path\.insert\(0,\s*['\"]" + re.escape(wt) + r".*$", "", demo, flags=re.M)
(d / "demo.py").write_text(demo)
notes = Path(wt, "NOTES.md")
(d / "NOTES.md").write_text(notes.read_text() if notes.exists() else "")
import os
meta = {"property": prop, "origin": os.environ.get("SEEDED_ORIGIN", "sub-agent given only the property text and a scratch worktree"),
        "summary": summary, "needs": needs, "suite": "84 stable tests still pass"}
if also:
    meta["also_run"] = also
(d / "meta.json").write_text(json.dumps(meta, indent=1) + "\n")
chk = subprocess.run(["git", "-C", "/repo", "apply", "--check", str(d / "patch.diff")], capture_output=True, text=True)
print("applies to /repo:", chk.returncode == 0, chk.stderr[:200])
