#!/venv/bin/python
"""Entry point: `check.py Cxx [--tier quick|thorough] [--replay file]`.

exit 0: property held on everything explored (KNOWN-FINDING lines may be printed)
exit 1: `VIOLATION property=<id> replay=<path>` printed
exit 2: infrastructure failure / timeout (never a violation)
"""
from __future__ import annotations

import argparse
import importlib
import os
import sys
import traceback
from pathlib import Path

sys.path.insert(0, str(Path(__file__).resolve().parent))
os.environ.setdefault("OMP_NUM_THREADS", "1")
os.environ.setdefault("OPENBLAS_NUM_THREADS", "1")
os.environ.setdefault("BLACK_IT_VERIF", "1")


def main() -> int:
    ap = argparse.ArgumentParser()
    ap.add_argument("prop")
    ap.add_argument("--tier", default=os.environ.get("VERIF_TIER", "quick"), choices=["quick", "thorough"])
    ap.add_argument("--replay", default=None)
    a = ap.parse_args()
    seed = int(os.environ.get("VERIF_SEED", "0") or 0)
    from vp.core import Check, HarnessError

    mod = importlib.import_module(f"props.{a.prop.lower()}")
    try:
        if a.replay:
            # a module's own replay re-runs the recorded failing inputs it knows how to rebuild; when it rebuilt none (inputs of a
            # seed-determined stream, correspondence breaks only), the check is run again with the recorded seed and tier
            import json

            class _Tee:
                def __init__(self, out):
                    self.out, self.seen = out, False

                def write(self, x):
                    self.seen = self.seen or ("REPLAY" in x or "replay" in x)
                    return self.out.write(x)

                def flush(self):
                    self.out.flush()
            tee = _Tee(sys.stdout)
            sys.stdout = tee
            try:
                rc = mod.replay(Path(a.replay))
            finally:
                sys.stdout = tee.out
            if not tee.seen:
                from vp.core import rerun_by_seed
                rc = rerun_by_seed(a.prop, json.loads(Path(a.replay).read_text()))
            return rc
        chk = Check(a.prop, a.tier, seed, getattr(mod, "MODULE", None))
        mod.run(chk)
        return chk.finish()
    except HarnessError as e:
        print(f"HARNESS-ERROR {a.prop}: {e}", file=sys.stderr)
        return 2
    except Exception as e:  # noqa: BLE001
        tb = traceback.extract_tb(e.__traceback__)
        import black_it
        pkg = str(Path(black_it.__file__).resolve().parent)
        inner = [f for f in tb if str(Path(f.filename).resolve()).startswith(pkg)]
        if inner and "chk" in locals():
            # the exception was raised INSIDE the code under test and escaped through a place where the unchanged code never raises:
            # the implementation no longer behaves like the model on this input. Reported as a correspondence break, not as a harness error.
            last = inner[-1]
            chk.disagree(f"the code under test raised {type(e).__name__}: {str(e)[:160]} at {Path(last.filename).name}:{last.lineno} ({last.name}) "
                         "where the model (and the unchanged implementation) returns normally",
                         {"traceback": traceback.format_exception(type(e), e, e.__traceback__)[-6:]})
            traceback.print_exc()
            return chk.finish()
        if "chk" in locals() and isinstance(e, (ValueError, OverflowError)) and ("NaN" in str(e) or "Infinity" in str(e) or "infinity" in str(e)) \
                and "integer" in str(e):
            # an exact-rational oracle was handed a NaN / infinity: the code under test returned a non-finite number where the unchanged code returns a finite one
            chk.disagree(f"the code under test returned a non-finite number where the model (and the unchanged implementation) returns a finite one ({type(e).__name__}: {e})",
                         {"traceback": traceback.format_exception(type(e), e, e.__traceback__)[-4:]})
            traceback.print_exc()
            return chk.finish()
        traceback.print_exc()
        print(f"HARNESS-ERROR {a.prop}: unexpected exception in the harness", file=sys.stderr)
        return 2


if __name__ == "__main__":
    rc = main()
    sys.stdout.flush()
    sys.stderr.flush()
    # joblib/loky workers (n_jobs > 1 runs) and threads left behind by the code under test must not delay or hang the exit
    try:
        if "joblib" in sys.modules:
            from joblib.externals.loky import get_reusable_executor

            get_reusable_executor().shutdown(wait=False, kill_workers=True)
    except Exception:  # noqa: BLE001
        pass
    os._exit(rc)
